"""Shared runner for the validation family (C01, C03, C09, C10, C12, ...):
generate (schema, config, document, update) cases, run the real validator and the
extracted model on each, return the paired outcomes."""
import collections
import json
import traceback

import common
from common import cerberus, real_error, canon_errors, enc_config, enc_value
from gen import Gen

DECLARED = ("DocumentError", "SchemaError")


def innermost_cerberus_frame(exc):
    tb = traceback.extract_tb(exc.__traceback__)
    name = tb[-1].name
    for fr in tb:
        if "/cerberus/" in fr.filename:
            name = fr.name
    return name


def real_cfg(cfg):
    """the configuration for the real validator: registries given as plain dicts (as the model takes them) become Registry objects"""
    if isinstance(cfg.get("rules_set_registry"), dict) or isinstance(cfg.get("schema_registry"), dict):
        import refs
        rr, sr = refs.make_registries(cfg.get("rules_set_registry") or {}, cfg.get("schema_registry") or {})
        cfg = dict(cfg, rules_set_registry=rr, schema_registry=sr)
    return cfg


P_REFS = 0.0     # set by the property modules whose oracles understand registries (C01, C02, C06, C09, C11, C13)


def with_references(g, schema, cfg, p=None):
    """with probability p: some rule sets / sub-schemas of the schema given by NAME, registries bound to the validator"""
    if g.r.random() >= (P_REFS if p is None else p):
        return schema, cfg
    import refs
    pos = refs.referenceable(schema)
    if not pos:
        return schema, cfg
    s2, rdefs, sdefs = refs.substitute(schema, g.r.sample(pos, g.r.randrange(1, min(3, len(pos)) + 1)))
    return s2, dict(cfg, rules_set_registry=rdefs, schema_registry=sdefs)


def real_validate(schema, cfg, doc, update, normalize=False, want_validator=False):
    cfg = real_cfg(cfg)
    import spell
    schema, cfg = spell.respell(schema, cfg, doc)
    try:
        v = cerberus.Validator(schema, **cfg)
    except cerberus.SchemaError as e:
        return {"r": "schema-rejected", "msg": str(e)[:300]}
    except Exception as e:
        return {"r": "construct-raise", "exn": type(e).__name__, "site": innermost_cerberus_frame(e)}
    # every second case is run on a USED validator (the same document processed once before with normalization on and
    # the opposite update flag): what an instance processed before must not show in the outcome
    if (len(repr(doc)) + len(repr(schema))) % 2:
        try:
            import copy as _copy
            v.validate(_copy.deepcopy(doc), update=not update)
        except Exception:
            try:
                v = cerberus.Validator(schema, **cfg)
            except Exception:
                pass
    try:
        ok = v.validate(doc, update=update, normalize=normalize)
        out = {"r": "ok", "verdict": ok, "errors": [real_error(e) for e in v._errors],
               "document": common.jval(v.document)}
    except Exception as e:
        out = {"r": "raise", "exn": type(e).__name__, "site": innermost_cerberus_frame(e), "msg": str(e)[:200]}
    if want_validator:
        out["validator"] = v
    return out


def encode_case(schema, cfg, doc, update, which="c"):
    out = ["V", which]
    enc_config(cfg, out)
    enc_value(schema, out)
    enc_value(doc, out)
    out.append("1" if update else "0")
    return " ".join(out)


def gen_cases(seed, n, p_update=0.25, **genkw):
    g = Gen(seed, **genkw)
    cases = []
    for i in range(n):
        schema = g.schema()
        cfg = g.config()
        k = g.r.random()
        if k < 0.8:
            doc = g.doc_for(schema)
        elif k < 0.9:
            doc = g.doc_for(schema, p_valid=1.0, p_unknown=0.0, p_present=1.0)
        else:
            doc = g.arbitrary_doc()
        update = g.r.random() < p_update
        schema, cfg = with_references(g, schema, cfg)
        cases.append({"schema": schema, "config": cfg, "document": doc, "update": update})
    return cases


def run_cases(cases, driver_ok=True, normalize=False):
    """adds 'real', 'model' (Impl: model at the facts extracted from the current source) and
    'spec' (model at the documented facts) to each case (models only for normalize=False)"""
    lines, idx = [], []
    for i, c in enumerate(cases):
        c["real"] = real_validate(c["schema"], c["config"], c["document"], c["update"], normalize=normalize)
        c["model"] = None
        c["spec"] = None
        if driver_ok and not normalize and c["real"]["r"] in ("ok", "raise"):
            try:
                lines.append(encode_case(c["schema"], c["config"], c["document"], c["update"], "c"))
                lines.append(encode_case(c["schema"], c["config"], c["document"], c["update"], "d"))
                idx.append(i)
            except ValueError:
                pass
    if lines:
        res = common.run_driver_parallel(lines)
        for j, i in enumerate(idx):
            cases[i]["model"] = res[2 * j]
            cases[i]["spec"] = res[2 * j + 1]
    return cases


def case_json(c):
    return {"schema": common.jval(c["schema"]), "config": common.jval(c["config"]),
            "document": common.jval(c["document"]), "update": c["update"]}


def case_from_json(j):
    return {"schema": common.unjson(j["schema"]), "config": common.unjson(j["config"]),
            "document": common.unjson(j["document"]), "update": j["update"]}


def distribution(cases):
    d = collections.Counter()
    for c in cases:
        r = c["real"]
        d["real_" + r["r"]] += 1
        if r["r"] == "ok":
            d["valid" if r["verdict"] else "invalid"] += 1
            for e in r["errors"]:
                d["code_0x%02x" % e["code"]] += 1
        elif r["r"] == "raise":
            d["raise_%s@%s" % (r["exn"], r["site"])] += 1
        d["depth_%d" % depth_of(c["schema"])] += 1
        import spell
        if spell.chosen(c["schema"], c.get("document")) and (
                any(spell.eligible(v) for v in c["schema"].values()) or spell.eligible(c.get("config", {}).get("allow_unknown"))):
            d["respelled_for_the_real_validator"] += 1
        for rules in c["schema"].values():
            if isinstance(rules, dict):
                for k in rules:
                    d["rule_" + str(k)] += 1
    return dict(d)


def depth_of(x):
    if isinstance(x, dict):
        return 1 + max([depth_of(v) for v in x.values()] + [0])
    if isinstance(x, list):
        return max([depth_of(v) for v in x] + [0])
    return 0


def shrink(case, still_fails, budget=150):
    """greedy minimisation of (schema, document) while `still_fails(case)` holds"""
    import copy
    best = copy.deepcopy(case)
    steps = 0

    def candidates(c):
        # drop document fields, schema fields, rules; shrink lists
        for k in list(c["document"].keys()):
            d = copy.deepcopy(c); del d["document"][k]; yield d
        for k in list(c["schema"].keys()):
            d = copy.deepcopy(c); del d["schema"][k]; yield d
        for k, rules in c["schema"].items():
            if isinstance(rules, dict):
                for rname in list(rules.keys()):
                    d = copy.deepcopy(c); del d["schema"][k][rname]; yield d
                for rname, cons in rules.items():
                    if isinstance(cons, list) and cons:
                        for i in range(len(cons)):
                            d = copy.deepcopy(c); del d["schema"][k][rname][i]; yield d
                    if isinstance(cons, dict):
                        for kk in list(cons.keys()):
                            d = copy.deepcopy(c); del d["schema"][k][rname][kk]; yield d
        for k, v in c["document"].items():
            if isinstance(v, list) and v:
                for i in range(len(v)):
                    d = copy.deepcopy(c); del d["document"][k][i]; yield d
            if isinstance(v, dict):
                for kk in list(v.keys()):
                    d = copy.deepcopy(c); del d["document"][k][kk]; yield d
        for k in list(c["config"].keys()):
            d = copy.deepcopy(c); del d["config"][k]; yield d
        if c["update"]:
            d = copy.deepcopy(c); d["update"] = False; yield d

    def in_domain(x):
        # the documented pairing: a `schema` rule comes with its `type`
        if isinstance(x, dict):
            if 'schema' in x and 'type' not in x:
                return False
            return all(in_domain(v) for v in x.values())
        if isinstance(x, list):
            return all(in_domain(v) for v in x)
        return True

    progress = True
    while progress and steps < budget:
        progress = False
        for cand in candidates(best):
            steps += 1
            if steps >= budget:
                break
            try:
                if in_domain(cand["schema"]) and in_domain(cand["config"]) and still_fails(cand):
                    best = cand
                    progress = True
                    break
            except Exception:
                continue
    return best
