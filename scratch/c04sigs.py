import sys, json, collections, warnings
sys.path.insert(0,'/verif/harness'); warnings.simplefilter('ignore')
from props import c04
c=collections.Counter(); ex={}
for seed in (1,2,3):
    res=c04.run({"tier":"quick","seed":seed*1000,"driver_ok":True})
    for v in res["violations"]:
        c[v["signature"]]+=1; ex.setdefault(v["signature"], v["what"][:160])
for k,n in c.most_common(): print(n, k, '|', ex[k])
