import sys, json, warnings
sys.path.insert(0, '/verif/harness'); warnings.simplefilter('ignore')
import vrun, common
from props import c03
import collections
seed=20260930
for kw in ({"p_mismatch": 0.35}, {"p_mismatch": 0.12}):
    for c in vrun.gen_cases(seed + len(kw), 1500, **kw):
        v=[]; c03.check_case(c, v, collections.Counter())
        for x in v:
            if sys.argv[1] in x['signature']:
                print(x['signature'], x['what']); print(c['schema']); print(c['config']); print(c['document']); sys.exit()
