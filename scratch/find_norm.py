import sys, json, collections, warnings
sys.path.insert(0, '/verif/harness'); warnings.simplefilter('ignore')
import nrun, vrun, common
seen=set()
for seed in range(1,6):
    for c in nrun.gen_cases(seed, 400):
        for api in ("validate","normalized"):
            r=nrun.real_api(c["schema"], c["config"], c["document"], c["update"], api)
            if r["r"] in ("raise","construct-raise"):
                sig="%s@%s"%(r["exn"],r["site"])
                if sig in seen: continue
                seen.add(sig)
                def still(cand):
                    rr=nrun.real_api(cand["schema"], cand["config"], cand["document"], cand["update"], api)
                    return rr["r"]==r["r"] and "%s@%s"%(rr.get("exn"),rr.get("site"))==sig
                s=vrun.shrink(c, still, 200)
                print(sig, api, r.get("msg","")[:80]); print("   ", s["schema"], s["config"], s["document"], s["update"])
