import sys, json, collections, warnings
sys.path.insert(0, '/verif/harness'); warnings.simplefilter('ignore')
import nrun, vrun, common
N=int(sys.argv[1]); seed=int(sys.argv[2])
cases = nrun.run_cases(nrun.gen_cases(seed, N))
st=collections.Counter(); dis=0
for c in cases:
    for api in ("validate","normalized"):
        r=c["real"][api]; m=c["model"].get(api)
        st[api+"_"+r["r"]]+=1
        if r["r"]=="raise": st["raise_%s@%s"%(r["exn"],r["site"])]+=1
        if r["r"]=="schema-rejected" and st["rej"]<3: st["rej"]+=1; print("REJ", r["msg"][:200])
        if r["r"]=="construct-raise": st["craise_%s@%s"%(r["exn"],r["site"])]+=1
        if r["r"] in ("ok","raise"):
            d=nrun.compare(r,m)
            if d:
                dis+=1
                if dis<=4:
                    print("DISAGREE", api, d[:700]); print("  schema", c["schema"]); print("  cfg", c["config"]); print("  doc", c["document"], c["update"])
print(dict(st)); print("disagreements", dis)
