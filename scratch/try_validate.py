import sys, json, random, collections, warnings
sys.path.insert(0, '/verif/harness')
warnings.simplefilter('ignore')
from common import *
from gen import Gen
import cerberus
N = int(sys.argv[1]) if len(sys.argv) > 1 else 300
seed = int(sys.argv[2]) if len(sys.argv) > 2 else 1
g = Gen(seed)
cases = []
stats = collections.Counter()
for i in range(N):
    schema = g.schema()
    cfg = g.config()
    doc = g.doc_for(schema) if g.r.random() < 0.8 else g.arbitrary_doc()
    update = g.r.random() < 0.25
    try:
        v = cerberus.Validator(schema, **cfg)
    except cerberus.SchemaError as e:
        stats['schema_rejected'] += 1
        if stats['schema_rejected'] < 4: print('REJ', schema, str(e)[:200])
        continue
    except Exception as e:
        stats['construct_exc_' + type(e).__name__] += 1
        continue
    try:
        ok = v.validate(doc, update=update, normalize=False)
        real = {"r": "ok", "errors": [real_error(e) for e in v._errors]}
    except Exception as e:
        import traceback
        tb = traceback.extract_tb(e.__traceback__)
        real = {"r": "raise", "exn": type(e).__name__, "site": tb[-1].name}
    out = ["V"]
    enc_config(cfg, out); enc_value(schema, out); enc_value(doc, out); out.append("1" if update else "0")
    cases.append((schema, cfg, doc, update, real, " ".join(out)))
res = run_driver([c[-1] for c in cases])
dis = 0
for (schema, cfg, doc, update, real, _), m in zip(cases, res):
    stats['real_' + real['r']] += 1
    if real['r'] != m['r']:
        same = False
    elif real['r'] == 'ok':
        same = canon_errors(real['errors']) == canon_errors(m['errors'])
        stats['valid' if not real['errors'] else 'invalid'] += 1
    elif real['r'] == 'raise':
        same = real['exn'] == m['exn']
        stats['exc_' + real['exn'] + '@' + real['site']] += 1
    else:
        same = False
    if not same:
        dis += 1
        if dis <= 5:
            print("DISAGREE\n schema=%r\n cfg=%r\n doc=%r update=%r" % (schema, cfg, doc, update))
            if real['r'] == 'ok' and m['r'] == 'ok':
                a, b = set(canon_errors(real['errors'])), set(canon_errors(m['errors']))
                print("  only real:", sorted(a - b)[:3]); print("  only model:", sorted(b - a)[:3])
            else:
                print("  real:", json.dumps(real)[:300]); print("  model:", json.dumps(m)[:300])
print(dict(stats)); print("cases", len(cases), "disagreements", dis)
