#!/usr/bin/env python3
"""Transcription pins: a digest of the normalised AST of every function / class attribute of the library that a
hand-written Coq model transcribes.  The models under coq/theories/Model were written against bodies with the
digests committed in translator/pins.json; a body that changed is a correspondence obligation that no longer checks
("transcription:<file>:<qualified name>") for every property whose model transcribes it.  `bin/pin_sources`
regenerates the digests from /repo (to be run, and reviewed, after a deliberate change of the library)."""
import ast
import hashlib
import json
import os
import sys

FILES = ['cerberus/validator.py', 'cerberus/schema.py', 'cerberus/errors.py', 'cerberus/utils.py']


def digests(repo):
    out = {}
    for rel in FILES:
        with open(os.path.join(repo, rel)) as f:
            mod = ast.parse(f.read(), rel)
        base = os.path.basename(rel)

        def visit(node, prefix):
            other = []
            for n in node.body:
                if isinstance(n, (ast.FunctionDef, ast.AsyncFunctionDef)):
                    key = "%s:%s%s" % (base, prefix, n.name)
                    # a property's getter and setter share one name: their digests are chained
                    out[key] = hashlib.sha256((out.get(key, "") + ast.dump(n, include_attributes=False)).encode()).hexdigest()[:16]
                elif isinstance(n, ast.ClassDef):
                    visit(n, prefix + n.name + ".")
                else:
                    other.append(ast.dump(n, include_attributes=False))
            # everything that is not a function or class at this level (assignments, decorators' targets, imports)
            out["%s:%s<body>" % (base, prefix)] = hashlib.sha256("\n".join(other).encode()).hexdigest()[:16]
        visit(mod, "")
    return out


if __name__ == '__main__':
    json.dump(digests(sys.argv[1]), sys.stdout, indent=1, sort_keys=True)
