#!/usr/bin/env python3
"""Fail-closed translator: reads facts from /repo's *current* cerberus sources
with Python's `ast` and writes them as a Coq record (Extracted/Current.v) and as
JSON (facts.json).  Every visitor matches an expected statement shape; anything
unrecognised raises TranslationError naming the function, and the caller treats
that as a broken proof obligation for the properties that depend on the fact
group.  It never guesses.

usage: translate.py <repo> <out_dir>
"""
import ast
import json
import os
import sys


class TranslationError(Exception):
    def __init__(self, group, where, msg):
        super().__init__("[%s] %s: %s" % (group, where, msg))
        self.group, self.where, self.msg = group, where, msg


def parse(repo, rel):
    with open(os.path.join(repo, rel)) as f:
        return ast.parse(f.read(), rel)


def find_class(mod, name):
    for n in mod.body:
        if isinstance(n, ast.ClassDef) and n.name == name:
            return n
    raise TranslationError("structure", name, "class not found")


def find_func(cls, name):
    for n in cls.body:
        if isinstance(n, ast.FunctionDef) and n.name == name:
            return n
    raise TranslationError("structure", name, "function not found")


def class_assign(cls, name):
    for n in cls.body:
        if isinstance(n, ast.Assign) and len(n.targets) == 1 \
                and isinstance(n.targets[0], ast.Name) and n.targets[0].id == name:
            return n.value
    raise TranslationError("structure", name, "class attribute not found")


def str_tuple(node, group, where):
    if not isinstance(node, (ast.Tuple, ast.List)):
        raise TranslationError(group, where, "expected a tuple/list literal, got %s" % ast.dump(node)[:80])
    out = []
    for e in node.elts:
        if not (isinstance(e, ast.Constant) and isinstance(e.value, str)):
            raise TranslationError(group, where, "expected string constants")
        out.append(e.value)
    return out


def int_list(node, group, where):
    if not isinstance(node, (ast.Tuple, ast.List)):
        raise TranslationError(group, where, "expected a list literal")
    out = []
    for e in node.elts:
        if not (isinstance(e, ast.Constant) and isinstance(e.value, int)):
            raise TranslationError(group, where, "expected int constants")
        out.append(e.value)
    return out


def is_self_attr(node, attr=None):
    return isinstance(node, ast.Attribute) and isinstance(node.value, ast.Name) \
        and node.value.id == 'self' and (attr is None or node.attr == attr)


def demangle(name):
    return name.lstrip('_')


# ---------------------------------------------------------------- errors.py

def errors_facts(repo):
    mod = parse(repo, 'cerberus/errors.py')
    defs = {}
    order = []
    for n in mod.body:
        if isinstance(n, ast.Assign):
            v = n.value
            names = [t.id for t in n.targets if isinstance(t, ast.Name)]
            if isinstance(v, ast.Call) and isinstance(v.func, ast.Name) and v.func.id == 'ErrorDefinition':
                if len(v.args) != 2 or v.keywords:
                    raise TranslationError("F8", "errors.py", "ErrorDefinition call shape")
                code, rule = v.args
                if not (isinstance(code, ast.Constant) and isinstance(code.value, int)):
                    raise TranslationError("F8", "errors.py", "code not an int literal")
                if not (isinstance(rule, ast.Constant) and (rule.value is None or isinstance(rule.value, str))):
                    raise TranslationError("F8", "errors.py", "rule not str/None")
                for nm in names:
                    if nm not in defs:
                        order.append(nm)
                    defs[nm] = (code.value, rule.value)
            elif isinstance(v, ast.Constant) and isinstance(v.value, str):
                for nm in names:     # e.g. DOCUMENT_MISSING re-bound to a message
                    if nm in defs:
                        del defs[nm]
                        order.remove(nm)

    def ev(node):
        if isinstance(node, ast.Constant) and isinstance(node.value, int):
            return node.value
        if isinstance(node, ast.Attribute) and node.attr == 'code' and isinstance(node.value, ast.Name) \
                and node.value.id in defs:
            return defs[node.value.id][0]
        if isinstance(node, ast.BinOp):
            a, b = ev(node.left), ev(node.right)
            if isinstance(node.op, ast.Sub):
                return a - b
            if isinstance(node.op, ast.Add):
                return a + b
            if isinstance(node.op, ast.BitAnd):
                return a & b
            if isinstance(node.op, ast.BitOr):
                return a | b
        raise TranslationError("F8", "mask", "cannot evaluate %s" % ast.dump(node)[:80])

    ve = find_class(mod, 'ValidationError')
    masks = {}
    for prop in ('is_group_error', 'is_logic_error', 'is_normalization_error'):
        fn = find_func(ve, prop)
        body = [s for s in fn.body if not (isinstance(s, ast.Expr) and isinstance(s.value, ast.Constant))]
        if len(body) != 1 or not isinstance(body[0], ast.Return):
            raise TranslationError("F8", prop, "expected a single return")
        r = body[0].value
        if not (isinstance(r, ast.Call) and isinstance(r.func, ast.Name) and r.func.id == 'bool'
                and len(r.args) == 1 and isinstance(r.args[0], ast.BinOp)
                and isinstance(r.args[0].op, ast.BitAnd) and is_self_attr(r.args[0].left, 'code')):
            raise TranslationError("F8", prop, "expected bool(self.code & <mask>)")
        masks[prop] = ev(r.args[0].right)

    fn = find_func(ve, 'child_errors')
    src = ast.unparse(fn.body[-1])
    if src != "return self.info[0] if self.is_group_error else None":
        raise TranslationError("F8", "child_errors", "unexpected body: " + src)
    fn = find_func(ve, 'definitions_errors')
    src = [ast.unparse(s) for s in fn.body if not (isinstance(s, ast.Expr) and isinstance(s.value, ast.Constant))]
    want = ["if not self.is_logic_error:\n    return None", "result = defaultdict(list)",
            "for error in self.child_errors:\n    i = error.schema_path[len(self.schema_path)]\n    result[i].append(error)",
            "return result"]
    if src != want:
        raise TranslationError("F8", "definitions_errors", "unexpected body")

    beh = find_class(mod, 'BasicErrorHandler')
    msgs = class_assign(beh, 'messages')
    if not isinstance(msgs, ast.Dict):
        raise TranslationError("F10", "messages", "expected dict literal")
    keys = []
    for k in msgs.keys:
        if not (isinstance(k, ast.Constant) and isinstance(k.value, int)):
            raise TranslationError("F10", "messages", "non-int key")
        keys.append(k.value)
    # F10: handler call = clear; extend; pretty_tree -- add() works on a deep copy
    call = [ast.unparse(st) for st in find_func(beh, '__call__').body]
    if call != ["self.clear()", "self.extend(errors)", "return self.pretty_tree"]:
        raise TranslationError("F10", "BasicErrorHandler.__call__", "expected clear; extend; return pretty_tree")
    addb = [st for st in find_func(beh, 'add').body if not (isinstance(st, ast.Expr) and isinstance(st.value, ast.Constant))]
    add_src = [ast.unparse(st) for st in addb]
    copies = len(add_src) >= 2 and add_src[0] == "error = deepcopy(error)" and add_src[1] == "self._rewrite_error_path(error)"
    want_dispatch = ("if error.is_logic_error:\n    self._insert_logic_error(error)\nelif error.is_group_error:\n    self._insert_group_error(error)\n"
                     "elif error.code in self.messages:\n    self._insert_error(error.document_path, self._format_message(error.field, error))")
    if not add_src or add_src[-1] != want_dispatch:
        raise TranslationError("F10", "BasicErrorHandler.add", "dispatch shape changed")
    pt = [ast.unparse(st) for st in find_func(beh, 'pretty_tree').body]
    if pt[0] != "pretty = deepcopy(self.tree)":
        raise TranslationError("F10", "pretty_tree", "expected a deep copy of the tree")
    return {"handler_add_copies": copies,
            "errdefs": [(n, defs[n][0], defs[n][1]) for n in order],
            "masks": {"group": masks['is_group_error'], "logic": masks['is_logic_error'],
                      "norm": masks['is_normalization_error']},
            "messages": keys}


# ------------------------------------------------------------- validator.py

TYPE_NAMES = {'_int_types': 'int', '_str_type': 'str'}


def type_names(node, where):
    if not isinstance(node, ast.Tuple):
        raise TranslationError("F2", where, "expected tuple of types")
    out = []
    for e in node.elts:
        if not isinstance(e, ast.Name):
            raise TranslationError("F2", where, "expected type names")
        out.append(TYPE_NAMES.get(e.id, e.id))
    return out


def calls_in(fn, pred):
    return [n for n in ast.walk(fn) if isinstance(n, ast.Call) and pred(n)]


def validator_facts(repo):
    mod = parse(repo, 'cerberus/validator.py')
    bv = find_class(mod, 'BareValidator')
    F = {}
    F['priority'] = str_tuple(class_assign(bv, 'priority_validations'), "F1", "priority_validations")
    F['mandatory'] = str_tuple(class_assign(bv, 'mandatory_validations'), "F1", "mandatory_validations")

    tm = class_assign(bv, 'types_mapping')
    if not isinstance(tm, ast.Dict):
        raise TranslationError("F2", "types_mapping", "expected dict literal")
    types = []
    for k, v in zip(tm.keys, tm.values):
        if not (isinstance(k, ast.Constant) and isinstance(k.value, str)):
            raise TranslationError("F2", "types_mapping", "key")
        if not (isinstance(v, ast.Call) and isinstance(v.func, ast.Name) and v.func.id == 'TypeDefinition'
                and len(v.args) == 3):
            raise TranslationError("F2", "types_mapping", "value of %s" % k.value)
        types.append({"name": k.value, "incl": type_names(v.args[1], k.value),
                      "excl": type_names(v.args[2], k.value)})
    F['types'] = types

    # __validate_definitions: excluded tuple
    fn = find_func(bv, '__validate_definitions')
    tuples = []
    for n in ast.walk(fn):
        if isinstance(n, ast.Compare) and len(n.ops) == 1 and isinstance(n.ops[0], ast.NotIn) \
                and isinstance(n.comparators[0], ast.Tuple):
            tuples.append(str_tuple(n.comparators[0], "F3", "__validate_definitions"))
    if len(tuples) != 1:
        raise TranslationError("F3", "__validate_definitions", "expected exactly one `not in (<tuple>)`")
    F['queue_excluded'] = tuples[0]
    src = ast.unparse(fn)
    for needle in ("for x in self.priority_validations if x in definitions or x in self.mandatory_validations",
                   "rules_queue.extend((x for x in self.mandatory_validations if x not in rules_queue))",
                   "x not in self.normalization_rules",
                   "rule = self._remaining_rules.pop(0)",
                   "if result:\n                break",
                   "except _SchemaRuleTypeError:\n            break",
                   "definitions = self._resolve_rules_set(definitions)"):
        if needle not in src:
            raise TranslationError("F3", "__validate_definitions", "shape changed: missing `%s`" % needle)

    def drop_args(fname, group):
        fn = find_func(bv, fname)
        cs = calls_in(fn, lambda c: is_self_attr(c.func, '_drop_remaining_rules'))
        if len(cs) != 1:
            raise TranslationError(group, fname, "expected one _drop_remaining_rules call")
        out = []
        for a in cs[0].args:
            if not (isinstance(a, ast.Constant) and isinstance(a.value, str)):
                raise TranslationError(group, fname, "non-constant drop argument")
            out.append(a.value)
        return out
    F['nullable_drops'] = drop_args('_validate_nullable', "F3")
    F['empty_drops'] = drop_args('_validate_empty', "F3")

    # *of
    fn = find_func(bv, '__validate_logical')
    inh = [n for n in ast.walk(fn) if isinstance(n, ast.For) and isinstance(n.iter, ast.Tuple)]
    if len(inh) != 1:
        raise TranslationError("F5", "__validate_logical", "expected one `for rule in (<tuple>)`")
    F['of_inherit'] = str_tuple(inh[0].iter, "F5", "__validate_logical")
    ofdefs = []
    CMP = {ast.Lt: 'CLt', ast.LtE: 'CLe', ast.Gt: 'CGt', ast.GtE: 'CGe', ast.Eq: 'CEq', ast.NotEq: 'CNe'}
    for op in ('anyof', 'allof', 'noneof', 'oneof'):
        fn = find_func(bv, '_validate_' + op)
        ifs = [s for s in fn.body if isinstance(s, ast.If)]
        if len(ifs) != 1 or ifs[0].orelse:
            raise TranslationError("F5", '_validate_' + op, "expected one if")
        t = ifs[0].test
        if not (isinstance(t, ast.Compare) and len(t.ops) == 1 and isinstance(t.left, ast.Name)
                and t.left.id == 'valids' and type(t.ops[0]) in CMP):
            raise TranslationError("F5", '_validate_' + op, "test shape")
        rhs = t.comparators[0]
        if isinstance(rhs, ast.Constant) and isinstance(rhs.value, int):
            operand = rhs.value
        elif ast.unparse(rhs) == 'len(definitions)':
            operand = 'len'
        else:
            raise TranslationError("F5", '_validate_' + op, "operand")
        body = ifs[0].body
        if len(body) != 1:
            raise TranslationError("F5", '_validate_' + op, "if body")
        call = body[0].value if isinstance(body[0], ast.Expr) else None
        if not (isinstance(call, ast.Call) and is_self_attr(call.func, '_error') and len(call.args) == 5
                and isinstance(call.args[1], ast.Attribute)
                and ast.unparse(call.args[2:]) if False else True):
            raise TranslationError("F5", '_validate_' + op, "_error call")
        if [ast.unparse(a) for a in call.args[2:]] != ['_errors', 'valids', 'len(definitions)'] \
                or ast.unparse(call.args[0]) != 'field':
            raise TranslationError("F5", '_validate_' + op, "_error arguments")
        first = fn.body[1] if isinstance(fn.body[0], ast.Expr) else fn.body[0]
        if ast.unparse(first) != "valids, _errors = self.__validate_logical('%s', definitions, field, value)" % op:
            raise TranslationError("F5", '_validate_' + op, "first statement")
        ofdefs.append({"name": op, "cmp": CMP[type(t.ops[0])], "operand": operand,
                       "err": call.args[1].attr})
    F['ofdefs'] = ofdefs

    # crumb drops and update forwarding per function
    sp_drops, fwd = [], []
    for fn in bv.body:
        if not isinstance(fn, ast.FunctionDef):
            continue
        cs = calls_in(fn, lambda c: is_self_attr(c.func, '_drop_nodes_from_errorpaths'))
        if fn.name == '_drop_nodes_from_errorpaths':
            cs = []
        if cs:
            if len(cs) != 1 or len(cs[0].args) != 3:
                raise TranslationError("F6", fn.name, "expected one 3-argument _drop_nodes_from_errorpaths call")
            if int_list(cs[0].args[1], "F6", fn.name) != []:
                raise TranslationError("F6", fn.name, "document-path drops are not modelled")
            sp_drops.append((demangle(fn.name), int_list(cs[0].args[2], "F6", fn.name)))
        # calls of a child validator:  validator(<doc>, update=..., normalize=False)
        vc = calls_in(fn, lambda c: isinstance(c.func, ast.Name) and c.func.id == 'validator')
        if vc and calls_in(fn, lambda c: is_self_attr(c.func, '_get_child_validator')):
            if len(vc) != 1:
                raise TranslationError("F6", fn.name, "expected one validator(...) call")
            kws = {k.arg: ast.unparse(k.value) for k in vc[0].keywords}
            if kws.get('normalize') != 'False':
                raise TranslationError("F6", fn.name, "child call must pass normalize=False")
            if 'update' in kws and kws['update'] != 'self.update':
                raise TranslationError("F6", fn.name, "update= passes something else than self.update")
            if set(kws) - {'update', 'normalize'}:
                raise TranslationError("F6", fn.name, "unexpected keyword in child call")
            fwd.append((demangle(fn.name), 'update' in kws))
    # the child factory: same class, the instance's whole configuration, explicit keywords override
    gc = ast.unparse(find_func(bv, '_get_child_validator'))
    for needle in ("child_config = self._config.copy()", "child_config.update(kwargs)", "child_validator = self.__class__(**child_config)",
                   "if not self.is_child:", "child_config['root_document'] = self.document"):
        if needle not in gc:
            raise TranslationError("F6", "_get_child_validator", "factory shape changed: missing `%s`" % needle)
    rh = ast.unparse(find_func(bv, '__get_rule_handler'))
    if "result = getattr(self, methodname, None)" not in rh:
        raise TranslationError("F6", "__get_rule_handler", "handlers are no longer looked up by name on the instance")
    F['sp_drops'] = sp_drops
    F['forwards_update'] = fwd

    # __normalize_mapping pipeline
    fn = find_func(bv, '__normalize_mapping')
    toks = []
    body = list(fn.body)
    pre = [ast.unparse(s) for s in body[:3]]
    if pre != ["if isinstance(schema, _str_type):\n    definition = self._resolve_schema(schema)\n    if definition is None:\n        definition = self._resolve_rules_set(schema)\n    if definition is None:\n        raise _SchemaRuleTypeError\n    schema = definition",
               "schema = schema.copy()",
               "for field in schema:\n    schema[field] = self._resolve_rules_set(schema[field])\n    if schema[field] is None:\n        raise _SchemaRuleTypeError"]:
        raise TranslationError("F11", "__normalize_mapping", "prologue changed")

    def step_name(call):
        if isinstance(call, ast.Expr) and isinstance(call.value, ast.Call) and is_self_attr(call.value.func):
            args = [ast.unparse(a) for a in call.value.args]
            if args != ['mapping', 'schema']:
                raise TranslationError("F11", "__normalize_mapping", "step arguments %s" % args)
            return demangle(call.value.func.attr)
        raise TranslationError("F11", "__normalize_mapping", "unrecognised step: %s" % ast.unparse(call)[:60])
    for s in body[3:]:
        if isinstance(s, ast.If):
            if s.orelse or len(s.body) != 1:
                raise TranslationError("F11", "__normalize_mapping", "guarded step shape")
            toks.append(step_name(s.body[0]) + "?" + ast.unparse(s.test))
        elif isinstance(s, ast.Assign):
            if ast.unparse(s) != "self._is_normalized = True":
                raise TranslationError("F11", "__normalize_mapping", "assignment")
            toks.append("set_is_normalized")
        elif isinstance(s, ast.Return):
            if ast.unparse(s) != "return mapping":
                raise TranslationError("F11", "__normalize_mapping", "return")
        else:
            toks.append(step_name(s))
    F['pipeline'] = toks

    # __init_processing resets
    fn = find_func(bv, '__init_processing')
    resets = []
    for s in fn.body:
        if isinstance(s, ast.Assign) and len(s.targets) == 1 and is_self_attr(s.targets[0]):
            resets.append(s.targets[0].attr + "=" + ast.unparse(s.value))
        elif isinstance(s, ast.If):
            resets.append("if " + ast.unparse(s.test) + ": " + "; ".join(ast.unparse(b) for b in s.body)
                          + (" else: " + "; ".join(ast.unparse(b) for b in s.orelse) if s.orelse else ""))
        elif isinstance(s, ast.Expr):
            resets.append(ast.unparse(s))
        else:
            raise TranslationError("F16", "__init_processing", "statement")
    F['resets'] = resets

    # validate(): statements before __init_processing (per-call attributes set there)
    fn = find_func(bv, 'validate')
    pro = []
    for st in fn.body:
        if isinstance(st, ast.Expr) and isinstance(st.value, ast.Constant):
            continue
        if isinstance(st, ast.Assign) and len(st.targets) == 1 and is_self_attr(st.targets[0]):
            pro.append(st.targets[0].attr + "=" + ast.unparse(st.value))
            continue
        if isinstance(st, ast.Expr) and isinstance(st.value, ast.Call) and is_self_attr(st.value.func, '_BareValidator__init_processing') \
                or (isinstance(st, ast.Expr) and ast.unparse(st).startswith('self.__init_processing(')):
            break
        raise TranslationError("F16", "validate", "unexpected statement before __init_processing: " + ast.unparse(st)[:60])
    else:
        raise TranslationError("F16", "validate", "__init_processing call not found")
    F['validate_prologue'] = pro
    src = ast.unparse(fn)
    for needle in ("if normalize:\n        self.__normalize_mapping(self.document, self.schema)",
                   "if not self.update:\n        self.__validate_required_fields(self.document)",
                   "return not bool(self._errors)"):
        if needle not in src:
            raise TranslationError("F16", "validate", "shape changed: missing `%s`" % needle)

    # return conventions of validated() / normalized() and the errors property
    def body_src(name, cls=bv):
        fn = find_func(cls, name)
        return [ast.unparse(st) for st in fn.body if not (isinstance(st, ast.Expr) and isinstance(st.value, ast.Constant))]
    if body_src('validated') != ["always_return_document = kwargs.pop('always_return_document', False)", "self.validate(*args, **kwargs)",
                                 "if self._errors and (not always_return_document):\n    return None\nelse:\n    return self.document"]:
        raise TranslationError("F16", "validated", "return convention changed")
    if body_src('normalized') != ["self.__init_processing(document, schema)", "self.__normalize_mapping(self.document, self.schema)",
                                  "self.error_handler.end(self)",
                                  "if self._errors and (not always_return_document):\n    return None\nelse:\n    return self.document"]:
        raise TranslationError("F16", "normalized", "return convention changed")
    if body_src('errors') != ["return self.error_handler(self._errors)"]:
        raise TranslationError("F16", "errors", "the errors property no longer renders self._errors")

    # metaclass: per-class cache
    im = find_class(mod, 'InspectedValidator')
    init = find_func(im, '__init__')
    F['cache_per_class'] = any(ast.unparse(st) == "cls._valid_schemas = set()" for st in init.body)
    return F


def write_facts(repo):
    """F14: every statement in the normalization functions that writes through `mapping` or `schema`:
    (function, root, depth of the written container below the root, was mapping[field] re-bound to a copy earlier in the function)"""
    mod = parse(repo, 'cerberus/validator.py')
    bv = find_class(mod, 'BareValidator')
    sites = []

    def root_depth(node):
        # target expression  root[...][...] -> (root, number of subscripts)
        d = 0
        while isinstance(node, ast.Subscript):
            node = node.value
            d += 1
        if isinstance(node, ast.Name):
            return node.id, d
        return None, d
    for fn in bv.body:
        if not isinstance(fn, ast.FunctionDef) or 'normalize' not in fn.name or fn.name == 'normalized':
            continue
        copied_at = None
        stmts = list(ast.walk(fn))
        for st in stmts:
            if isinstance(st, ast.Assign) and ast.unparse(st) == "mapping[field] = copy(mapping[field])":
                copied_at = st.lineno
        for st in stmts:
            targets = []
            if isinstance(st, ast.Assign):
                targets = [(t, 'assign') for t in st.targets]
            elif isinstance(st, ast.AugAssign):
                targets = [(st.target, 'augassign')]
            elif isinstance(st, ast.Delete):
                targets = [(t, 'del') for t in st.targets]
            elif isinstance(st, ast.Call) and isinstance(st.func, ast.Attribute) and st.func.attr in ('pop', 'update', 'clear', 'setdefault', 'popitem', 'append', 'extend', 'insert', 'remove'):
                r, d = root_depth(st.func.value)
                if r in ('mapping', 'schema'):
                    sites.append((demangle(fn.name), r, d, bool(copied_at and copied_at < st.lineno), st.func.attr))
                continue
            for t, kind in targets:
                if not isinstance(t, ast.Subscript):
                    continue
                r, d = root_depth(t)
                if r in ('mapping', 'schema'):
                    sites.append((demangle(fn.name), r, d - 1, bool(copied_at and copied_at < st.lineno), kind))
    # the document is copied on entry and the schema before reference resolution
    ip = ast.unparse(find_func(bv, '__init_processing'))
    nm = ast.unparse(find_func(bv, '__normalize_mapping'))
    return {"write_sites": sorted(set(sites)), "entry_copies_document": "self.document = copy(document)" in ip,
            "schema_copied_before_resolution": "schema = schema.copy()" in nm}


def entry_facts(repo):
    """F17: every entry point validates (after expanding) BEFORE it commits; fail-closed shape checks"""
    mod = parse(repo, 'cerberus/schema.py')
    ds = find_class(mod, 'DefinitionSchema')

    def srcs(cls, name):
        return [ast.unparse(st) for st in find_func(cls, name).body if not (isinstance(st, ast.Expr) and isinstance(st.value, ast.Constant))]
    init = srcs(ds, '__init__')
    if init[-3:] != ["schema = self.expand(schema)", "self.validate(schema)", "self.schema = schema"]:
        raise TranslationError("F17", "DefinitionSchema.__init__", "expected expand; validate; commit as the last three statements")
    if srcs(ds, '__setitem__') != ["value = self.expand({0: value})[0]", "self.validate({key: value})", "self.schema[key] = value"]:
        raise TranslationError("F17", "DefinitionSchema.__setitem__", "expected expand; validate; commit")
    upd = ast.unparse(find_func(ds, 'update'))
    for needle in ("schema = self.expand(schema)", "_new_schema = self.schema.copy()", "_new_schema.update(schema)", "self.validate(_new_schema)",
                   "else:\n        self.schema = _new_schema"):
        if needle not in upd:
            raise TranslationError("F17", "DefinitionSchema.update", "shape changed: missing " + needle)
    vmod = parse(repo, 'cerberus/validator.py')
    bv = find_class(vmod, 'BareValidator')
    setters = {}
    for fn in bv.body:
        if isinstance(fn, ast.FunctionDef) and any(ast.unparse(d).endswith('.setter') for d in fn.decorator_list):
            setters[fn.name] = ast.unparse(fn)
    if "if not (self.is_child or isinstance(value, (bool, DefinitionSchema))):\n        DefinitionSchema(self, {'allow_unknown': value})\n    self._config['allow_unknown'] = value" not in setters.get('allow_unknown', ''):
        raise TranslationError("F17", "allow_unknown.setter", "expected validation through DefinitionSchema before the value is stored")
    if "else:\n        self._schema = DefinitionSchema(self, schema)" not in setters.get('schema', ''):
        raise TranslationError("F17", "schema.setter", "expected DefinitionSchema(self, schema)")
    ip = ast.unparse(find_func(bv, '__init_processing'))
    if "if schema is not None:\n        self.schema = DefinitionSchema(self, schema)" not in ip:
        raise TranslationError("F17", "__init_processing", "per-call schema must be validated before it replaces the schema")
    return {"entry_points_validate_first": True}


def cache_facts(repo):
    """F21: cache key shape per site (schema.py) and the freezer's scalar case (utils.py)"""
    mod = parse(repo, 'cerberus/schema.py')
    sites = []

    def tag_of(call):
        # mapping_hash(X): X is a name (whole schema) or {'tag': value}
        a = call.args[0]
        if isinstance(a, ast.Dict) and len(a.keys) == 1 and isinstance(a.keys[0], ast.Constant):
            return a.keys[0].value
        if isinstance(a, ast.Name):
            return ""
        raise TranslationError("F21", "cache key", "unrecognised key expression " + ast.unparse(a))
    for cname, fname in (('DefinitionSchema', 'validate'), ('SchemaValidatorMixin', '_check_with_bulk_schema'),
                         ('SchemaValidatorMixin', '_check_with_schema'), ('SchemaValidatorMixin', '_validate_logical')):
        fn = find_func(find_class(mod, cname), fname)
        hs = [n for n in ast.walk(fn) if isinstance(n, ast.Assign) and len(n.targets) == 1 and isinstance(n.targets[0], ast.Name)
              and n.targets[0].id == '_hash']
        if len(hs) != 1 or not isinstance(hs[0].value, ast.Tuple) or len(hs[0].value.elts) != 2:
            raise TranslationError("F21", fname, "expected one `_hash = (mapping_hash(..), mapping_hash(..types_mapping))`")
        k0, k1 = hs[0].value.elts
        if not (isinstance(k0, ast.Call) and ast.unparse(k0.func) == 'mapping_hash' and isinstance(k1, ast.Call)
                and ast.unparse(k1.func) == 'mapping_hash' and ast.unparse(k1.args[0]).endswith('types_mapping')
                and ('target_validator' in ast.unparse(k1.args[0]) or ast.unparse(k1.args[0]) == 'self.validator.types_mapping')):
            raise TranslationError("F21", fname, "cache key is not (hash of the schema, hash of the target validator's types_mapping)")
        src = ast.unparse(fn)
        if "_remember_valid_schema(_hash)" not in src or "_valid_schemas.add(" in src or (
                "_hash in self.target_validator._valid_schemas" not in src and "_hash not in self.validator._valid_schemas" not in src):
            raise TranslationError("F21", fname, "cache lookup / insert shape changed (inserts go through _remember_valid_schema)")
        sites.append((fname.lstrip('_'), tag_of(k0)))
    # what is remembered as valid did not rest on a registry: the guarded insert, and every resolution site records itself
    mixin = find_class(mod, 'SchemaValidatorMixin')
    rem = ast.unparse(find_func(mixin, '_remember_valid_schema'))
    if "if not self.resolved_refs:\n        self.target_validator._valid_schemas.add(_hash)" not in rem or rem.count("_valid_schemas") != 1:
        raise TranslationError("F21", "_remember_valid_schema", "the insert is not guarded by `not self.resolved_refs`")
    for fname, needle in (('_check_with_bulk_schema', "self.known_rules_set_refs.add(value)\n            self.resolved_refs.add(True)"),
                          ('_handle_schema_reference_for_validator', "self.known_schema_refs.add(value)\n    self.resolved_refs.add(True)"),
                          ('_expand_rules_set_refs', "if result[k] is not None:\n                self.resolved_refs.add(True)")):
        if needle not in ast.unparse(find_func(mixin, fname)):
            raise TranslationError("F21", fname, "a resolved reference is not recorded in resolved_refs")
    dv = ast.unparse(find_func(find_class(mod, 'DefinitionSchema'), '_validate'))
    for needle in ("resolved_refs = isinstance(schema, _str_type)", "if isinstance(rules, _str_type):\n            resolved_refs = True",
                   "self.schema_validator.resolved_refs.clear()\n    if resolved_refs:\n        self.schema_validator.resolved_refs.add(True)"):
        if needle not in dv:
            raise TranslationError("F21", "DefinitionSchema._validate", "top-level references are not recorded: missing `%s`" % needle)
    um = parse(repo, 'cerberus/utils.py')
    mh = [n for n in um.body if isinstance(n, ast.FunctionDef) and n.name == 'mapping_hash']
    if len(mh) != 1 or [ast.unparse(st) for st in mh[0].body] != ["return mapping_to_frozenset(schema)"]:
        raise TranslationError("F21", "mapping_hash", "the cache key is not the frozen structure itself")
    fz = [n for n in um.body if isinstance(n, ast.FunctionDef) and n.name == 'mapping_to_frozenset']
    if len(fz) != 1:
        raise TranslationError("F21", "mapping_to_frozenset", "not found")
    src = ast.unparse(fz[0])
    typed = "isinstance(value, (bool, int, float))" in src and "aggregation[key] = (type(value), value)" in src \
        and "isinstance(value, Sequence) and (not isinstance(value, _str_type))" in src      # a string is not the sequence of its characters
    sq = [n for n in um.body if isinstance(n, ast.FunctionDef) and n.name == '_sequence_to_tuple']
    typed = typed and len(sq) == 1 and "isinstance(item, (bool, int, float))" in ast.unparse(sq[0]) \
        and "result[i] = (type(item), item)" in ast.unparse(sq[0])                             # ... as members of a sequence too
    for needle in ("isinstance(value, Mapping)", "isinstance(value, Sequence)", "isinstance(value, Set)", "return frozenset(aggregation.items())"):
        if needle not in src:
            raise TranslationError("F21", "mapping_to_frozenset", "case list changed: missing " + needle)
    # lazily created SchemaValidator: the module global is assigned once, as the LAST statement of the creation block
    ds = find_class(mod, 'DefinitionSchema')
    new = find_func(ds, '__new__')
    ifs = [st for st in new.body if isinstance(st, ast.If) and "'SchemaValidator' not in globals()" in ast.unparse(st.test)]
    if len(ifs) != 1:
        raise TranslationError("F21", "DefinitionSchema.__new__", "lazy creation block not found")
    body = [st for st in ifs[0].body if not isinstance(st, ast.Global)]
    assigns = [i for i, st in enumerate(body) if isinstance(st, ast.Assign) and any(isinstance(t, ast.Name) and t.id == 'SchemaValidator' for t in st.targets)]
    mutations = [i for i, st in enumerate(body) if 'SchemaValidator.' in ast.unparse(st) and isinstance(st, (ast.Assign, ast.AugAssign))
                 and any(ast.unparse(t).startswith('SchemaValidator.') for t in getattr(st, 'targets', [getattr(st, 'target', None)]) if t is not None)]
    publish_last = len(assigns) == 1 and assigns[0] == len(body) - 1 and not mutations
    return {"cache_sites": sites, "cache_typed_scalars": typed, "lazy_publish_last": publish_last}


def worklist_facts(repo):
    """F12: the default-setter work-list of __normalize_default_fields as a list of shape tokens (fail-closed:
    a statement that is not recognised becomes a token quoting it, which no documented list contains)."""
    mod = parse(repo, 'cerberus/validator.py')
    cls = find_class(mod, 'BareValidator')
    fn = find_func(cls, '_BareValidator__normalize_default_fields') if any(
        isinstance(n, ast.FunctionDef) and n.name == '_BareValidator__normalize_default_fields' for n in cls.body) \
        else find_func(cls, '__normalize_default_fields')
    loops = [st for st in fn.body if isinstance(st, ast.While)]
    if len(loops) != 1:
        raise TranslationError("F12", "__normalize_default_fields", "expected exactly one while loop")
    loop = loops[0]
    q = ast.unparse(loop.test)
    toks = []
    # what precedes the loop: the seen-set and the queue
    pre = [ast.unparse(st) for st in fn.body[:fn.body.index(loop)]]
    seen_names = [p.split(' = ')[0] for p in pre if p.endswith(' = set()')]
    if len(seen_names) != 1:
        raise TranslationError("F12", "__normalize_default_fields", "seen-set not found")
    seen = seen_names[0]
    qdefs = [p for p in pre if p.startswith(q + ' = ')]
    if len(qdefs) != 1:
        raise TranslationError("F12", "__normalize_default_fields", "queue definition not found")
    toks.append("queue:" + ("empty_fields_with_default_setter_in_order"
                if qdefs[0] == q + " = [x for x in empty_fields if 'default_setter' in schema[x]]" else "?" + qdefs[0]))
    state = None
    for st in loop.body:
        s = ast.unparse(st)
        if s == "field = %s.pop(0)" % q:
            toks.append("pop_front")
        elif isinstance(st, ast.Try):
            if [ast.unparse(b) for b in st.body] == ["self._normalize_default_setter(mapping, schema, field)"] and not st.orelse and not st.finalbody:
                toks.append("call")
            else:
                toks.append("?try:" + ";".join(ast.unparse(b) for b in st.body))
            for h in st.handlers:
                t = ast.unparse(h.type) if h.type is not None else "BaseException"
                body = [ast.unparse(b) for b in h.body]
                if body == ["%s.append(field)" % q]:
                    act = "requeue_back"
                elif body == ["self._error(field, errors.SETTING_DEFAULT_FAILED, str(e))"]:
                    act = "file_own_field"
                else:
                    act = "?" + ";".join(body)
                toks.append("except %s:%s" % (t, act))
        elif isinstance(st, ast.Assign) and len(st.targets) == 1 and isinstance(st.targets[0], ast.Name) and state is None \
                and q in ast.unparse(st.value):
            state = st.targets[0].id
            toks.append("state:" + ("tuple" if ast.unparse(st.value) == "tuple(%s)" % q else
                                    "hash_of_tuple" if ast.unparse(st.value) == "hash(tuple(%s))" % q else "?" + ast.unparse(st.value)))
        elif isinstance(st, ast.If) and state is not None and ast.unparse(st.test) == "%s in %s" % (state, seen):
            body = [ast.unparse(b) for b in st.body]
            exp = ["for field in %s:\n    self._error(field, errors.SETTING_DEFAULT_FAILED, 'Circular dependencies of default setters.')" % q, "break"]
            toks.append("seen:" + ("file_all_pending_and_stop" if body == exp else "?" + ";".join(body)))
            orelse = [ast.unparse(b) for b in st.orelse]
            toks.append("unseen:" + ("remember" if orelse == ["%s.add(%s)" % (seen, state)] else "?" + ";".join(orelse)))
        else:
            toks.append("?" + s)
    return {"worklist": toks}


def stops_facts(repo):
    """F3: which rule handlers can stop the processing of a field's remaining rules by returning a true value, and on
    what condition: (handler, condition) for every `return <expr>` with a value in a _validate_<rule> method."""
    mod = parse(repo, 'cerberus/validator.py')
    cls = find_class(mod, 'BareValidator')
    out = []
    for fn in cls.body:
        if not (isinstance(fn, ast.FunctionDef) and fn.name.startswith('_validate_')):
            continue
        parents = {}
        for node in ast.walk(fn):
            for ch in ast.iter_child_nodes(node):
                parents[ch] = node
        for node in ast.walk(fn):
            if isinstance(node, ast.Return) and node.value is not None:
                conds = []
                cur = node
                while cur in parents and parents[cur] is not fn:
                    par = parents[cur]
                    if isinstance(par, ast.If):
                        conds.append(("" if cur in par.body else "not ") + "(" + ast.unparse(par.test) + ")")
                    cur = par
                out.append((fn.name, "return %s if %s" % (ast.unparse(node.value), " and ".join(reversed(conds)) or "True")))
    return {"stops": out}


def introspect(repo):
    """Tables the metaclass computes: read from the freshly imported package."""
    sys.path.insert(0, repo)
    for m in [m for m in sys.modules if m == 'cerberus' or m.startswith('cerberus.')]:
        del sys.modules[m]
    import cerberus
    if not os.path.realpath(cerberus.__file__).startswith(os.path.realpath(repo)):
        raise TranslationError("structure", "import", "imported cerberus is not the repo's")
    return {"normalization_rules": sorted(cerberus.Validator.normalization_rules),
            "validation_rules": sorted(cerberus.Validator.validation_rules)}


# ------------------------------------------------------------------ Coq out

def cs(s):
    return '"' + s.replace('"', '""') + '"'


def clist(items):
    return "[" + "; ".join(items) + "]"


def cz(n):
    return "(%d)" % n


def to_coq(F):
    L = []
    L.append("(* GENERATED by translator/translate.py from /repo's current sources. Do not edit. *)")
    L.append("From Coq Require Import List ZArith String.")
    L.append("From Cerb Require Import Values Errors Facts.")
    L.append("Import ListNotations.\nOpen Scope string_scope.\nOpen Scope Z_scope.\nOpen Scope list_scope.\n")
    L.append("Definition current : facts := {|")
    ed = clist("(%s, (%s, %s))" % (cs(n), cz(c), "Some " + cs(r) if r is not None else "None")
               for n, c, r in F['errdefs'])
    L.append("  f_errdefs := %s;" % ed)
    m = F['masks']
    L.append("  f_masks := {| m_group := %s; m_logic := %s; m_norm := %s |};" % (cz(m['group']), cz(m['logic']), cz(m['norm'])))
    L.append("  f_messages := %s;" % clist(cz(k) for k in F['messages']))
    L.append("  f_priority := %s;" % clist(map(cs, F['priority'])))
    L.append("  f_mandatory := %s;" % clist(map(cs, F['mandatory'])))
    L.append("  f_types := %s;" % clist(
        "{| td_name := %s; td_incl := %s; td_excl := %s |}" % (cs(t['name']), clist(map(cs, t['incl'])), clist(map(cs, t['excl'])))
        for t in F['types']))
    L.append("  f_queue_excluded := %s;" % clist(map(cs, F['queue_excluded'])))
    L.append("  f_stops := %s;" % clist("(%s, %s)" % (cs(a), cs(b)) for a, b in F['stops']))
    L.append("  f_normalization_rules := %s;" % clist(map(cs, F['normalization_rules'])))
    L.append("  f_nullable_drops := %s;" % clist(map(cs, F['nullable_drops'])))
    L.append("  f_empty_drops := %s;" % clist(map(cs, F['empty_drops'])))
    L.append("  f_of_inherit := %s;" % clist(map(cs, F['of_inherit'])))
    L.append("  f_ofdefs := %s;" % clist(
        "{| of_name := %s; of_cmp := %s; of_operand := %s; of_err := %s |}" % (
            cs(o['name']), o['cmp'], "OLen" if o['operand'] == 'len' else "OLit %s" % cz(o['operand']), cs(o['err']))
        for o in F['ofdefs']))
    L.append("  f_sp_drops := %s;" % clist("(%s, %s)" % (cs(n), clist("%d%%nat" % i for i in l)) for n, l in F['sp_drops']))
    L.append("  f_forwards_update := %s;" % clist("(%s, %s)" % (cs(n), "true" if b else "false") for n, b in F['forwards_update']))
    L.append("  f_pipeline := %s;" % clist(map(cs, F['pipeline'])))
    L.append("  f_worklist := %s;" % clist(map(cs, F['worklist'])))
    L.append("  f_resets := %s;" % clist(map(cs, F['resets'])))
    L.append("  f_validate_prologue := %s;" % clist(map(cs, F['validate_prologue'])))
    L.append("  f_cache_sites := %s;" % clist("(%s, %s)" % (cs(a), cs(b)) for a, b in F['cache_sites']))
    L.append("  f_cache_typed_scalars := %s;" % ("true" if F['cache_typed_scalars'] else "false"))
    L.append("  f_cache_per_class := %s;" % ("true" if F['cache_per_class'] else "false"))
    L.append("  f_handler_add_copies := %s;" % ("true" if F['handler_add_copies'] else "false"))
    L.append("  f_write_sites := %s;" % clist("(%s, %s, %d%%nat, %s)" % (cs(a), cs(b), d, "true" if c else "false") for a, b, d, c, k in F['write_sites']))
    L.append("  f_entry_copies := %s;" % ("true" if (F['entry_copies_document'] and F['schema_copied_before_resolution']) else "false"))
    L.append("  f_lazy_publish_last := %s" % ("true" if F['lazy_publish_last'] else "false"))
    L.append("|}.")
    return "\n".join(L) + "\n"


def translate(repo):
    F = {}
    F.update(errors_facts(repo))
    F.update(validator_facts(repo))
    F.update(cache_facts(repo))
    F.update(worklist_facts(repo))
    F.update(stops_facts(repo))
    F.update(write_facts(repo))
    F.update(entry_facts(repo))
    F.update(introspect(repo))
    return F


def main():
    repo, out = sys.argv[1], sys.argv[2]
    os.makedirs(out, exist_ok=True)
    status = {"ok": True, "errors": []}
    try:
        F = translate(repo)
    except TranslationError as e:
        status = {"ok": False, "errors": [{"group": e.group, "where": e.where, "msg": e.msg}]}
        F = None
    except SyntaxError as e:
        status = {"ok": False, "errors": [{"group": "syntax", "where": str(e.filename), "msg": str(e)}]}
        F = None
    except Exception as e:  # import-time failure of the repo package etc.
        status = {"ok": False, "errors": [{"group": "import", "where": "cerberus", "msg": repr(e)}]}
        F = None

    def write_if_changed(path, text):
        try:
            with open(path) as f:
                if f.read() == text:
                    return
        except OSError:
            pass
        with open(path, 'w') as f:
            f.write(text)

    if F is not None:
        write_if_changed(os.path.join(out, "Current.v"), to_coq(F))
        write_if_changed(os.path.join(out, "facts.json"), json.dumps(F, indent=1, sort_keys=True))
    write_if_changed(os.path.join(out, "translate_status.json"), json.dumps(status, indent=1))
    print(json.dumps(status))
    return 0 if status["ok"] else 2


if __name__ == '__main__':
    sys.exit(main())
